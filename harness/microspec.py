"""Micro-specs: one record ("world") instantiates both the TLA+ specs (as the JSON value
bound to W) and a real accelforge Spec (YAML).  Purely structural translation — no
oracle here.

world = {
  id, tensors: [names in backing order], bound: {rv: int}, proj: {t: [rv,..]}, out: t,
  level: {comp: int}  (memories and tolls, 0 = outermost), istoll: {comp: bool},
  dir: {comp: {t: "up"|"down"|"up_and_down"|"na"}}, skip: {comp: bool}, cskip: bool,
  bits: {comp: {t: bits per value seen by comp}}, wbits: {t: workload bits}, size: {comp: int or 0 (=inf)},
  cost: {comp: {avpa: {a: {t: [n,d]}}, cvpa: {t: [n,d]}, abpa: {a: int}, cbpa: int,
                energy: {a: int}, tput: {a: [n,d]} ([1,0] = inf), leak: int}},
  mac: {energy: int, tput: [n,d], leak: int},
}
Absent optional fields are 0 / [0,1].
"""
from __future__ import annotations

import json
import os
import random
from fractions import Fraction

ACTIONS = ("read", "write")


def _fr(x):
    return Fraction(x[0], x[1])


def gen_world(rng: random.Random, wid: int, *, n_mem=2, toll=False, bounds=None, rich_costs=True,
              kind="matmul", sizes=False):
    if kind == "matmul":
        tensors = ["A", "B", "Z"]
        proj = {"A": ["m", "k"], "B": ["k", "n"], "Z": ["m", "n"]}
        rvs = ["m", "n", "k"]
    elif kind == "matvec":
        tensors = ["A", "B", "Z"]
        proj = {"A": ["k"], "B": ["k", "n"], "Z": ["n"]}
        rvs = ["n", "k"]
    elif kind == "elementwise":
        tensors = ["A", "B", "Z"]
        proj = {"A": ["m", "n"], "B": ["m", "n"], "Z": ["m", "n"]}
        rvs = ["m", "n"]
    elif kind == "reduce":
        tensors = ["A", "Z"]
        proj = {"A": ["m", "k"], "Z": ["m"]}
        rvs = ["m", "k"]
    else:
        raise ValueError(kind)
    if bounds is None:
        bounds = [rng.choice([2, 2, 3, 4]) for _ in rvs]
    bound = dict(zip(rvs, bounds))
    mems = ["DRAM", "GLB", "RF"][:n_mem]
    comps = list(mems)
    if toll:
        # a toll between the last two memories (or below the last memory)
        pos = rng.choice([len(mems) - 1, len(mems)])
        comps.insert(pos, "TOLL")
    level = {c: i for i, c in enumerate(comps)}
    istoll = {c: c == "TOLL" for c in comps}
    wbits = {t: rng.choice([8, 8, 4, 2, 1]) if rich_costs else 8 for t in tensors}
    bits, cost, skip, dirs, size = {}, {}, {}, {}, {}
    for c in comps:
        bits[c] = {}
        for t in tensors:
            bits[c][t] = rng.choice([1, 2, 4, 8]) if (rich_costs and rng.random() < 0.3) else wbits[t]
        cc = {"avpa": {a: {t: [0, 1] for t in tensors} for a in ACTIONS},
              "cvpa": {t: [0, 1] for t in tensors},
              "abpa": {a: 0 for a in ACTIONS}, "cbpa": 0,
              "energy": {a: rng.randint(1, 16) for a in ACTIONS},
              "tput": {a: rng.choice([[1, 1], [2, 1], [4, 1], [1, 0], [1, 0]]) for a in ACTIONS},
              "leak": rng.choice([0, 0, 1, 2]) if rich_costs else 0}
        if rich_costs:
            if rng.random() < 0.3:
                cc["cbpa"] = rng.choice([1, 2, 4, 8, 16])
            for a in ACTIONS:
                if rng.random() < 0.25:
                    cc["abpa"][a] = rng.choice([1, 2, 4, 8, 16])
            for t in tensors:
                if rng.random() < 0.2:
                    cc["cvpa"][t] = rng.choice([[1, 2], [1, 1], [2, 1], [4, 1]])
                for a in ACTIONS:
                    if rng.random() < 0.15:
                        cc["avpa"][a][t] = rng.choice([[1, 2], [1, 1], [2, 1], [4, 1]])
        cost[c] = cc
        skip[c] = (rng.random() < 0.6) if rich_costs else True
        dirs[c] = {t: (rng.choice(["up", "down", "up_and_down"]) if istoll[c] else "na") for t in tensors}
        size[c] = 0
    mac = {"energy": rng.randint(1, 8), "tput": rng.choice([[1, 1], [2, 1], [1, 2]]),
           "leak": rng.choice([0, 1]) if rich_costs else 0}
    return {"id": wid, "kind": kind, "tensors": tensors, "bound": bound, "proj": proj, "out": "Z",
            "level": level, "istoll": istoll, "dir": dirs, "skip": skip,
            "cskip": (rng.random() < 0.7) if rich_costs else True,
            "bits": bits, "wbits": wbits, "size": size, "cost": cost, "mac": mac, "ninst": 1, "allowpers": False}


# ------------------------------------------------------------------------------ YAML
def _num(fr):
    fr = Fraction(fr)
    return str(fr.numerator) if fr.denominator == 1 else repr(float(fr))


def _tput(tp):
    return "inf" if tp[1] == 0 else _num(_fr(tp))


def arch_yaml(w, keep=None) -> str:
    """keep: optional {comp: {"keep": expr, "may_keep": expr}} (mapper runs).
    Optional w["escale"] / w["tscale"] ([n, d]) multiply every per-action energy and leak power /
    every throughput (configuration actions of C19)."""
    es = _fr(w.get("escale", [1, 1]))
    tsc = _fr(w.get("tscale", [1, 1]))
    E = lambda x: _num((_fr(x) if isinstance(x, (list, tuple)) else Fraction(x)) * es)
    T = lambda tp: "inf" if tp[1] == 0 else _num(_fr(tp) * tsc)
    out = ["arch:", "  nodes:"]
    comps = sorted(w["level"], key=lambda c: w["level"][c])
    for c in comps:
        cc = w["cost"][c]
        toll = w["istoll"][c]
        out.append("  - !%s" % ("Toll" if toll else "Memory"))
        out.append("    name: %s" % c)
        if not toll:
            out.append("    size: %s" % ("inf" if not w["size"][c] else w["size"][c]))
            out.append("    skip_initial_output_write: %s" % ("True" if w["skip"][c] else "False"))
        else:
            out.append("    direction: {%s}" % ", ".join("%s: %s" % (t, w["dir"][c][t]) for t in w["tensors"]))
        for f in w.get("fanout", []):
            if f["comp"] == c:
                out += _spatial_lines(w, f)
        out.append("    leak_power: %s" % E(cc["leak"]))
        out.append("    area: 0")
        if keep and c in keep:
            out.append("    tensors: {keep: %s, may_keep: %s}" % (json.dumps(keep[c]["keep"]), json.dumps(keep[c]["may_keep"])))
        else:
            out.append("    tensors: {keep: %s, may_keep: All}" % ("~Intermediates" if w["level"][c] == 0 else "Nothing"))
        ov = {t: b for t, b in w["bits"][c].items() if b != w["wbits"][t]}
        if ov:
            out.append("    bits_per_value: {%s}" % ", ".join("%s: %d" % kv for kv in ov.items()))
        if cc["cbpa"]:
            out.append("    bits_per_action: %d" % cc["cbpa"])
        cv = {t: v for t, v in cc["cvpa"].items() if v[0]}
        if cv:
            out.append("    values_per_action: {%s}" % ", ".join("%s: %s" % (t, _num(_fr(v))) for t, v in cv.items()))
        out.append("    actions:")
        for a in (("read",) if toll else ACTIONS):
            ent = ["name: %s" % a, "energy: %s" % E(cc["energy"][a]), "throughput: %s" % T(cc["tput"][a])]
            if cc["abpa"][a]:
                ent.append("bits_per_action: %d" % cc["abpa"][a])
            av = {t: v for t, v in cc["avpa"][a].items() if v[0]}
            if av:
                ent.append("values_per_action: {%s}" % ", ".join("%s: %s" % (t, _num(_fr(v))) for t, v in av.items()))
            out.append("    - {%s}" % ", ".join(ent))
    for f in w.get("fanout", []):
        if f["comp"] in w["level"]:
            continue    # a fanout of a memory is written inside that memory's node (see _spatial_lines)
        out += ["  - !Container", "    name: %s" % f["comp"]] + _spatial_lines(w, f)
    out += ["  - !Compute", "    name: MAC",
            "    skip_initial_output_write: %s" % ("True" if w["cskip"] else "False"),
            "    leak_power: %s" % E(w["mac"]["leak"]), "    area: 0", "    actions:",
            "    - {name: compute, energy: %s, throughput: %s}" % (E(w["mac"]["energy"]), T(w["mac"]["tput"]))]
    return "\n".join(out) + "\n"


def _spatial_lines(w, f):
    out = ["    spatial:", "    - name: %s" % f["dim"], "      fanout: %d" % f["n"]]
    lbs = [c for c in w.get("lbs", []) if c["comp"] == f["comp"] and c["dim"] == f["dim"]]
    if lbs:
        out.append("      loop_bounds:")
        for c in lbs:
            out += ["      - expression: %s" % " | ".join(c["vars"]),
                    "        operator: '%s'" % (("product" if c["product"] else "") + c["op"]),
                    "        value: %d" % c["value"]]
    return out


def workload_yaml(w) -> str:
    out = ["workload:", "  iteration_space_shape:"]
    for r, b in w["bound"].items():
        out.append("    %s: 0 <= %s < %d" % (r, r, b))
    out.append("  bits_per_value: {%s}" % ", ".join("%s: %d" % (t, w["wbits"][t]) for t in w["tensors"]))
    if w.get("ninst", 1) != 1:
        out.append("  n_instances: %d" % w["ninst"])
    out.append("  einsums:")
    out.append("  - name: E")
    if w.get("einst", 1) != 1:
        out.append("    n_instances: %d" % w["einst"])
    out.append("    tensor_accesses:")
    for t in w["tensors"]:
        out.append("    - {name: %s, projection: [%s]%s}" % (
            t, ", ".join(w["proj"][t]), ", output: True" if t == w["out"] else ""))
    return "\n".join(out) + "\n"


def mapping_yaml(w, nodes) -> str:
    out = ["mapping:", "  nodes:"]
    for n in nodes:
        if n["kind"] == "S":
            kind = "Toll" if w["istoll"][n["mem"]] else "Storage"
            out.append("  - !%s {tensors: [%s], component: %s%s}" % (kind, n["t"], n["mem"],
                                                                  ", persistent: True" if n.get("pers") else ""))
        elif n["kind"] == "T":
            out.append("  - !Temporal {rank_variable: %s, tile_shape: %d}" % (n["rv"], n["tile"]))
        elif n["kind"] == "C":
            out.append("  - !Compute {einsum: E, component: MAC}")
        else:
            raise ValueError(n)
    return "\n".join(out) + "\n"


def write_spec_files(w, nodes, d, tag="case"):
    os.makedirs(d, exist_ok=True)
    paths = []
    for name, txt in (("arch", arch_yaml(w)), ("workload", workload_yaml(w)),
                      ("mapping", mapping_yaml(w, nodes))):
        p = os.path.join(d, "%s_%s.yaml" % (tag, name))
        with open(p, "w") as f:
            f.write(txt)
        paths.append(p)
    return paths


def evaluate(w, nodes, d, tag="case"):
    """Run the real model on (world, mapping).  Returns a dict with exact Fractions:
    actions[(comp, tensor, action)], energy, latency, usage[mem] — or {"error": type, "msg":}."""
    from accelforge.frontend.spec import Spec
    from accelforge.model.main import evaluate_mapping, InvalidMappingError
    paths = write_spec_files(w, nodes, d, tag)
    spec = Spec.from_yaml(*paths)
    try:
        r = evaluate_mapping(spec)
    except InvalidMappingError as e:
        return {"error": "InvalidMappingError", "msg": str(e)}
    acts = {k: _exact(v) for k, v in r.actions(per_component=True, per_tensor=True).items()}
    return {"actions": acts, "energy": _exact(r.energy()), "latency": _exact(r.latency()),
            "usage": {k: _exact(v) for k, v in r.resource_usage().items()},
            "result": r}


def _exact(v):
    try:
        import sympy
        if isinstance(v, sympy.Basic):
            v = sympy.nsimplify(v) if v.is_Rational else float(v)
            if hasattr(v, "p"):
                return Fraction(int(v.p), int(v.q))
    except Exception:
        pass
    if isinstance(v, int):
        return Fraction(v)
    return Fraction(*float(v).as_integer_ratio())
