"""Shared driver for the LoopNest-based checks (C05, C06, C31): TLC constructs and executes
mappings of the given worlds (spec/MC_LoopNest.tla) and prints the terminal counters; the
real model is run on every printed mapping in a process pool."""
from __future__ import annotations

import json
import os
import traceback
from concurrent.futures import ProcessPoolExecutor
from fractions import Fraction

from . import microspec as ms


def run_tlc(ck, worlds, cfg, tag, *, simulate=None, depth=400, seed=None, timeout=1500, workers="auto"):
    path = os.path.join(ck.work, "worlds_%s.json" % tag)
    with open(path, "w") as f:
        json.dump(worlds, f)
    kw = dict(env={"WORLDS_FILE": path}, coverage=False, timeout=timeout, workers=workers)
    if simulate:
        kw.update(simulate=simulate, depth=depth, seed=seed)
    res = ck.tlc("MC_LoopNest", cfg, **kw)
    return res


def coverage_run(ck, worlds, cfg, tag):
    """A small exhaustive run with -coverage 1, to show that every action is exercised."""
    path = os.path.join(ck.work, "worlds_%s.json" % tag)
    with open(path, "w") as f:
        json.dump(worlds, f)
    return ck.tlc("MC_LoopNest", cfg, env={"WORLDS_FILE": path}, coverage=True, timeout=900,
                  required_actions=("AddLoop", "AddHolder", "Close", "EnterHolder", "EnterLoop",
                                    "DoCompute", "AdvanceLoop", "ExitHolder", "Finish"))


def _eval_one(args):
    w, nodes, d, tag = args
    try:
        out = ms.evaluate(w, nodes, d, tag)
        out.pop("result", None)
        return out
    except Exception as e:  # implementation raised something unexpected
        return {"exception": "%s: %s" % (type(e).__name__, e), "traceback": traceback.format_exc()[-2500:]}


def evaluate_records(ck, worlds, records, nproc=16):
    byid = {w["id"]: w for w in worlds}
    d = os.path.join(ck.work, "yaml")
    os.makedirs(d, exist_ok=True)
    jobs = [(byid[r["wid"]], r["nodes"], d, "p%d" % (i % (4 * nproc))) for i, r in enumerate(records)]
    # distinct file tags per in-flight job are not needed: each worker process writes, loads, then reuses;
    # but two workers must not share a tag, so tag by worker pid inside the worker instead
    with ProcessPoolExecutor(nproc) as ex:
        outs = list(ex.map(_eval_tagged, jobs, chunksize=8))
    return outs


def _eval_tagged(args):
    w, nodes, d, _ = args
    return _eval_one((w, nodes, d, "pid%d" % os.getpid()))


def expected_actions(rec):
    return {(c, t, a): Fraction(v[0], v[1])
            for c, tt in rec["actions"].items() for t, aa in tt.items() for a, v in aa.items()}


def short(nodes):
    out = []
    for n in nodes:
        if n["kind"] == "S":
            out.append("%s[%s]" % (n["mem"], n["t"]))
        elif n["kind"] == "T":
            out.append("for %s:%s" % (n["rv"], n["tile"]))
        elif n["kind"] == "P":
            out.append("spatial-%s-%s %s:%s" % (n.get("mem"), n.get("dim"), n["rv"], n["tile"]))
        else:
            out.append("MAC")
    return " / ".join(out)
