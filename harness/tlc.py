"""Thin driver around TLC: run a module/config, parse what TLC itself reports.

Nothing here decides a property.  It starts TLC (model checking or -simulate) in
/verif/spec with a private metadir, passes inputs through environment variables
(read in the spec with IOEnv) and returns

  * the JSON records the spec printed with PrintT(ToJson(..))   (one per line),
  * TLC's own summary numbers (states generated / distinct states),
  * per-action coverage counts from -coverage 1,
  * whether TLC reported an invariant / property / postcondition violation, and
    the raw tail of the output for diagnostics.
"""
from __future__ import annotations

import json
import os
import re
import shutil
import subprocess
import time
from dataclasses import dataclass, field

VERIF = os.path.dirname(os.path.dirname(os.path.abspath(__file__)))
SPEC_DIR = os.path.join(VERIF, "spec")
JAR = "/opt/veriftools/tla/tla2tools.jar:/opt/veriftools/tla/CommunityModules-deps.jar"


class TLCMachineryError(RuntimeError):
    """TLC could not be run or its output could not be understood (exit 2)."""


@dataclass
class TLCResult:
    module: str
    cfg: str
    records: list = field(default_factory=list)
    generated: int = 0
    distinct: int = 0
    coverage: dict = field(default_factory=dict)  # action -> (distinct, generated)
    ok: bool = True  # no invariant/property/postcondition violation
    violated: str | None = None
    wall_s: float = 0.0
    cmd: str = ""
    tail: str = ""
    returncode: int = 0
    stdout: str = ""


_SUMMARY = re.compile(r"(\d+) states generated, (\d+) distinct states found")
_SIM = re.compile(r"(\d+) states checked")
_COV = re.compile(r"^<(\w+) line \d+, col \d+ to line \d+, col \d+ of module (\w+)>: (\d+):(\d+)")
_VIOL = re.compile(
    r"(Invariant (\S+) is violated|Action property (\S+) is violated|"
    r"Temporal properties were violated|The postcondition.*violated|"
    r"Error: .*|Deadlock reached)"
)


def run(
    module: str,
    cfg: str | None = None,
    *,
    workdir: str,
    env: dict | None = None,
    workers: int | str = "auto",
    simulate: str | None = None,  # e.g. "num=1000"
    depth: int | None = None,
    seed: int | None = None,
    timeout: int = 600,
    coverage: bool = True,
    deadlock: bool = False,
    dfs: bool = False,
    extra: list | None = None,
    keep_stdout: bool = False,
    heap: str = "8g",
) -> TLCResult:
    cfg = cfg or (module + ".cfg")
    os.makedirs(workdir, exist_ok=True)
    meta = os.path.join(workdir, "tlc-meta-%s-%d" % (module, int(time.time() * 1e6) % 10**9))
    shutil.rmtree(meta, ignore_errors=True)
    java = ["java", "-XX:+UseParallelGC", "-Xss64m", "-Xmx" + heap]
    if dfs:
        java.append("-Dtlc2.tool.queue.IStateQueue=StateDeque")
    cmd = java + ["-cp", JAR, "tlc2.TLC", "-metadir", meta, "-noGenerateSpecTE",
                  "-config", cfg, "-workers", str(workers)]
    if coverage:
        cmd += ["-coverage", "1"]
    if not deadlock:
        cmd += ["-deadlock"]  # -deadlock switches deadlock checking OFF
    if simulate is not None:
        cmd += ["-simulate", simulate]
    if depth is not None:
        cmd += ["-depth", str(depth)]
    if seed is not None:
        cmd += ["-seed", str(seed)]
    cmd += list(extra or [])
    cmd += [module + ".tla"]
    e = dict(os.environ)
    e.update({k: str(v) for k, v in (env or {}).items()})
    t0 = time.time()
    try:
        p = subprocess.run(cmd, cwd=SPEC_DIR, env=e, capture_output=True, text=True,
                           timeout=timeout)
    except subprocess.TimeoutExpired as ex:
        shutil.rmtree(meta, ignore_errors=True)
        raise TLCMachineryError("TLC timeout after %ds: %s %s" % (timeout, module, cfg)) from ex
    finally:
        pass
    shutil.rmtree(meta, ignore_errors=True)
    out = p.stdout
    res = TLCResult(module=module, cfg=cfg, wall_s=time.time() - t0,
                    cmd=" ".join(cmd[cmd.index("tlc2.TLC"):]), returncode=p.returncode)
    if keep_stdout:
        res.stdout = out
    lines = out.splitlines()
    for ln in lines:
        if ln.startswith('"{') or ln.startswith('"['):
            try:
                res.records.append(json.loads(json.loads(ln)))
            except Exception as ex:  # interleaved output
                raise TLCMachineryError("unparsable record line: %r" % ln[:200]) from ex
            continue
        m = _SUMMARY.search(ln)
        if m:
            res.generated, res.distinct = int(m.group(1)), int(m.group(2))
            continue
        m = _COV.match(ln)
        if m:
            res.coverage[m.group(1)] = (int(m.group(3)), int(m.group(4)))
            continue
        m = _VIOL.search(ln)
        if m and res.violated is None:
            if ln.startswith("Error: ") or "violated" in ln or "Deadlock" in ln:
                res.violated = ln.strip()
                res.ok = False
    if simulate is not None and res.generated == 0:
        for ln in lines:
            m = _SIM.search(ln)
            if m:
                res.generated = res.distinct = int(m.group(1))
    nonrec = [l for l in lines if not (l.startswith('"{') or l.startswith('"['))]
    res.tail = "\n".join(nonrec[-40:])
    if p.returncode != 0 and res.ok:
        # TLC exit codes: 0 ok, 10-13 violations, others are errors
        res.ok = False
        res.violated = res.violated or ("TLC exit code %d" % p.returncode)
    if "Parsing or semantic analysis failed" in out or "Fatal error" in out \
            or "Error: Parsing" in out or "java.lang." in out and "Exception" in out:
        raise TLCMachineryError("TLC failed on %s/%s:\n%s" % (module, cfg, res.tail))
    return res


def sany(module: str) -> None:
    p = subprocess.run(["java", "-cp", JAR, "tla2sany.SANY", module + ".tla"], cwd=SPEC_DIR,
                       capture_output=True, text=True, timeout=120)
    if p.returncode != 0 or "Semantic errors" in p.stdout or "*** Errors" in p.stdout \
            or "Parse Error" in p.stdout or "Fatal" in p.stdout:
        raise TLCMachineryError("SANY rejects %s:\n%s" % (module, p.stdout[-2000:]))
