"""Bookkeeping shared by all checks: tiers, seeds, scratch space, verdicts,
known findings, evidence.  No oracle lives here."""
from __future__ import annotations

import hashlib
import json
import os
import shutil
import sys
import time
import traceback
from fractions import Fraction

from . import tlc as _tlc

VERIF = _tlc.VERIF
REPO = os.environ.get("VERIF_REPO", "/repo")
KNOWN_FINDINGS = os.path.join(VERIF, "known_findings.json")


class Machinery(RuntimeError):
    """The machinery (not the code under test) failed: exit 2."""


def jdefault(o):
    if isinstance(o, Fraction):
        return str(o)
    if isinstance(o, (set, frozenset)):
        return sorted(o, key=str)
    try:
        import numpy as np
        if isinstance(o, np.generic):
            return o.item()
        if isinstance(o, np.ndarray):
            return o.tolist()
    except Exception:
        pass
    return repr(o)


class Check:
    def __init__(self, pid: str, tier: str, seed: int):
        self.pid = pid
        self.tier = tier
        self.seed = seed
        self.t0 = time.time()
        self.work = os.path.join(VERIF, ".work", pid)
        shutil.rmtree(self.work, ignore_errors=True)
        os.makedirs(self.work, exist_ok=True)
        self.replay_dir = os.path.join(VERIF, "replay", pid)
        self.states = 0
        self.transitions = 0
        self.traces = 0
        self.evaluations = 0
        self.nontrivial = set()
        self.nontrivial_count = 0
        self.samples = []
        self.violations = []  # (signature, detail, path)
        self.known_hits = {}
        self.impl_errors = 0
        self.impl_error_sample = None
        self.cov = {}
        self.tlc_cmds = []
        self.extra = {}
        self.rule = ""
        self.level = "model_checking"
        self.exhaustive = False
        self.trusted = ["TLC 1.8 (tla2tools.jar) and the TLA+ CommunityModules",
                        "harness abstraction functions (structural export/import of cases)"]
        self.assumptions = []
        self.known = self._load_known()

    # ------------------------------------------------------------------ known findings
    def _load_known(self):
        out = []
        files = [KNOWN_FINDINGS]
        d = os.path.join(VERIF, "known_findings.d")
        if os.path.isdir(d):
            files += [os.path.join(d, f) for f in sorted(os.listdir(d)) if f.endswith(".json")]
        for fn in files:
            if not os.path.exists(fn):
                continue
            data = json.load(open(fn))
            out += [f for f in data.get("findings", []) if f.get("property") == self.pid]
        return out

    # ------------------------------------------------------------------ TLC
    def tlc(self, module, cfg=None, *, required_actions=(), **kw):
        kw.setdefault("workdir", self.work)
        res = _tlc.run(module, cfg, **kw)
        self.states += res.distinct
        self.transitions += res.generated
        for a, (d, g) in res.coverage.items():
            k = "%s.%s" % (module, a)
            old = self.cov.get(k, [0, 0])
            self.cov[k] = [old[0] + d, old[1] + g]
        self.tlc_cmds.append(res.cmd)
        for a in required_actions:
            if res.coverage.get(a, (0, 0))[1] == 0:
                raise Machinery("vacuity: action %s of %s was never taken (%s)" % (a, module, res.cfg))
        return res

    def tlc_expect_ok(self, module, cfg=None, **kw):
        res = self.tlc(module, cfg, **kw)
        if not res.ok:
            raise Machinery("TLC reports a problem in design-level run %s/%s: %s\n%s"
                            % (module, res.cfg, res.violated, res.tail))
        return res

    # ------------------------------------------------------------------ verdicts
    def sample(self, obj, limit=5):
        if len(self.samples) < limit:
            self.samples.append(json.loads(json.dumps(obj, default=jdefault)))

    def count_nontrivial(self, key):
        """key: hashable identity of a non-trivial case (distinct ones are counted)."""
        h = hashlib.blake2b(repr(key).encode(), digest_size=8).digest()
        self.nontrivial.add(h)

    def impl_error(self, exc, case=None):
        self.impl_errors += 1
        if self.impl_error_sample is None:
            self.impl_error_sample = {
                "case": json.loads(json.dumps(case, default=jdefault)),
                "traceback": "".join(traceback.format_exception(type(exc), exc, exc.__traceback__))[-3000:],
            }

    def violation(self, signature: str, detail: str, replay: dict):
        """Report a disagreement between spec and implementation.

        signature identifies the *kind of case* (used to match known findings);
        replay is a JSON-serialisable record from which `./check <id> --replay`
        reproduces the disagreement against the real code."""
        for f in self.known:
            if f.get("status") == "open" and f.get("signature") == signature:
                self.known_hits.setdefault(signature, [f, 0, detail])
                self.known_hits[signature][1] += 1
                return
        # one replay file per signature (first witness), more are only counted
        for v in self.violations:
            if v[0] == signature:
                v[3] += 1
                return
        os.makedirs(self.replay_dir, exist_ok=True)
        name = hashlib.blake2b(signature.encode(), digest_size=6).hexdigest() + ".json"
        path = os.path.join(self.replay_dir, name)
        rec = dict(replay)
        rec["property"] = self.pid
        rec["signature"] = signature
        rec["detail"] = detail
        with open(path, "w") as f:
            json.dump(rec, f, indent=1, default=jdefault)
        self.violations.append([signature, detail, path, 1])

    # ------------------------------------------------------------------ finish
    def finish(self):
        lost = self.impl_errors
        total = max(self.evaluations, 1)
        ev = {
            "property_id": self.pid,
            "tier": self.tier,
            "seed": self.seed,
            "level": self.level,
            "coverage": {
                "states": self.states,
                "transitions": self.transitions,
                "traces_validated_against_impl": self.traces,
                "evaluations": self.evaluations,
                "distinct_nontrivial": len(self.nontrivial) + self.nontrivial_count,
                "rule": self.rule,
                "samples": self.samples or [{"note": "no sample recorded"}],
                "exhaustive": bool(self.exhaustive),
                "checker_cmd": "; ".join(sorted(set(self.tlc_cmds)))[:4000],
                "trusted_base": self.trusted,
                "coverage_actions": self.cov,
                "impl_errors": self.impl_errors,
                "impl_error_sample": self.impl_error_sample,
                "known_findings_hit": {k: v[1] for k, v in self.known_hits.items()},
            },
            "assumptions": self.assumptions,
            "wall_s": round(time.time() - self.t0, 2),
            "violations": len(self.violations),
        }
        if self.level == "other":
            ev["coverage"]["explanation"] = self.extra.get("explanation", self.rule)
        ev["coverage"].update(self.extra)
        os.makedirs(os.path.join(VERIF, "evidence"), exist_ok=True)
        with open(os.path.join(VERIF, "evidence", self.pid + ".json"), "w") as f:
            json.dump(ev, f, indent=1, default=jdefault)
        for sig, (f, n, detail) in self.known_hits.items():
            print("KNOWN-FINDING: property=%s %s [signature=%s, %d case(s) this run]"
                  % (self.pid, f.get("what", ""), sig, n))
        for sig, detail, path, n in self.violations:
            print("VIOLATION property=%s replay=%s" % (self.pid, path))
            print("  signature: %s (%d case(s))" % (sig, n))
            print("  " + detail.replace("\n", "\n  ")[:700])
        if self.violations:
            return 1
        if lost and lost > 0.10 * total:
            print("MACHINERY: %d of %d generated cases were lost to implementation errors; sample:\n%s"
                  % (lost, total, (self.impl_error_sample or {}).get("traceback", "")), file=sys.stderr)
            return 2
        if self.states < 1 or self.transitions < 1:
            print("MACHINERY: TLC explored nothing", file=sys.stderr)
            return 2
        print("OK property=%s tier=%s states=%d transitions=%d replayed/validated=%d nontrivial=%d wall=%.1fs"
              % (self.pid, self.tier, self.states, self.transitions, self.traces,
                 len(self.nontrivial) + self.nontrivial_count, time.time() - self.t0))
        return 0


def frac(x) -> Fraction:
    """Exact rational value of a float / int / numpy scalar coming out of the implementation."""
    import math
    if isinstance(x, Fraction):
        return x
    if isinstance(x, int):
        return Fraction(x)
    x = float(x)
    if math.isinf(x) or math.isnan(x):
        raise ValueError("not finite: %r" % x)
    return Fraction(*x.as_integer_ratio())
